//go:build verif
// +build verif

package main

// Conformance harness for spec/ClientMain (client/snowflake.go: socksAcceptLoop with its
// handlers, copyLoop; main's shutdown sequence), injected with `go test -overlay`.
// It only EXECUTES schedules against the real code and RECORDS what it sees; the recorded
// traces are judged by TLC against spec/ClientMain/ClientMain_Trace.tla.
//
//   socks schedules   the real socksAcceptLoop on goptlib's SocksListener over a scripted
//                     net.Listener (a loopback TCP listener whose Accept results the schedule
//                     decides), real SOCKS5 clients of the harness that pass the arguments
//                     the way tor does (username/password fields), the real
//                     sf.NewSnowflakeClient / Transport.Dial (ICE servers are unusable, so no
//                     rendezvous is ever attempted); the ClientConfig each handler builds is
//                     seen through the guarded hook "newclient.config" of client/lib
//   copy schedules    the real copyLoop between two scripted conns; the closes its callers
//                     make (dial goroutine: sconn.Close() when copyLoop returns; handler:
//                     conn.Close() after that) are mirrored line by line
//   process schedules the real main() in a child process (this test binary re-executed,
//                     TOR_PT_* environment of a managed client transport, command-line flags
//                     for every config field), SOCKS5 clients, SIGTERM / stdin close
//
//   VERIF_CLI_SCHED  input, one JSON object per line (vCliSched)
//   VERIF_CLI_OUT    output, one JSON object per line (vCliTrace)
//   VERIF_CLI_PATIENCE_MS

import (
	"bufio"
	"bytes"
	"encoding/json"
	"errors"
	"fmt"
	"io"
	"log"
	"net"
	"os"
	"os/exec"
	"reflect"
	"regexp"
	"runtime"
	"sort"
	"strconv"
	"strings"
	"sync"
	"sync/atomic"
	"syscall"
	"testing"
	"time"

	pt "git.torproject.org/pluggable-transports/goptlib.git"
	sf "git.torproject.org/pluggable-transports/snowflake.git/v2/client/lib"
)

type vCliStep struct {
	Op   string            `json:"op"` // Connect | AcceptTemp | AcceptPerm | SocksChunk | SocksEnd | SocksWriteFail | SfChunk | SfEnd | SfWriteFail | Shutdown | Sigterm | StdinEOF
	I    int               `json:"i,omitempty"`
	Kind string            `json:"kind,omitempty"`
	Args map[string]string `json:"args,omitempty"` // field -> absent | ok | bad
	// ConnectBurst: these requests are sent and accepted without waiting for the process to come to
	// rest in between (handlers run side by side); every vector has fingerprint = ok, by which the
	// config seen at the hook is attributed to its connection
	Burst []map[string]string `json:"burst,omitempty"`
}

type vCliSched struct {
	ID    int        `json:"id"`
	Mode  string     `json:"mode"` // socks | copy | proc
	Steps []vCliStep `json:"steps"`
}

type vCliTrace struct {
	ID      int                      `json:"id"`
	Mode    string                   `json:"mode"`
	Events  []map[string]interface{} `json:"events"`
	Skipped int                      `json:"skipped"`
	Note    string                   `json:"note,omitempty"`
	Info    map[string]interface{}   `json:"info,omitempty"`
}

var (
	vCliPatience      = 2 * time.Second
	vCliPauseMin      = 4 * time.Millisecond
	vCliBusySeen      int32
	vCliUnsettledSeen int32
	vCliFields        = []string{"ampcache", "front", "ice", "max", "url", "utls-nosni", "utls-imitate", "fingerprint"}
	vCliUTLSNames     = []string{"hellochrome_auto", "hellofirefox_auto", "helloios_auto", "hellochrome_72", "hellofirefox_65"}
)

// ---------------------------------------------------------------------------
// concrete values of the abstract config sources (0 = command line, j = argument of
// connection j) and back

const (
	vCliFlagURL   = "https://flag-broker.invalid/"
	vCliFlagAmp   = "https://flag-amp.invalid/"
	vCliFlagFront = "flag-front.invalid"
	vCliFlagICE   = "x-ice-flag-a,x-ice-flag-b"
	vCliFlagMax   = 7
)

func vCliFlagConfig() sf.ClientConfig {
	return sf.ClientConfig{
		BrokerURL:    vCliFlagURL,
		AmpCacheURL:  vCliFlagAmp,
		FrontDomain:  vCliFlagFront,
		ICEAddresses: strings.Split(vCliFlagICE, ","),
		Max:          vCliFlagMax,
	}
}

// vCliArgValue is the SOCKS argument value of class cls ("ok" | "bad") for field f of connection j.
func vCliArgValue(f, cls string, j int) string {
	switch f {
	case "url":
		if cls == "bad" {
			return fmt.Sprintf("https://bad-broker-%d.invalid:port/", j)
		}
		return fmt.Sprintf("https://arg-broker-%d.invalid/", j)
	case "ampcache":
		if cls == "bad" {
			return fmt.Sprintf("https://bad-amp-%d.invalid:port/", j)
		}
		return fmt.Sprintf("https://arg-amp-%d.invalid/", j)
	case "front":
		return fmt.Sprintf("arg-front-%d.invalid", j)
	case "ice":
		return fmt.Sprintf(" x-ice-arg-%d-a,x-ice-arg-%d-b ", j, j)
	case "max":
		if cls == "bad" {
			return fmt.Sprintf("many%d", j)
		}
		return strconv.Itoa(10 + j)
	case "fingerprint":
		return fmt.Sprintf("%038X%02d", 0xF1A6, j)
	case "utls-imitate":
		if cls == "bad" {
			return fmt.Sprintf("hellobogus_%d", j)
		}
		return vCliUTLSNames[j%len(vCliUTLSNames)]
	case "utls-nosni":
		if cls == "bad" { // a value that is neither "true" nor "yes": ignored
			return []string{"false", "no", "1", "on"}[j%4]
		}
		return []string{"true", "yes", "YES", "True"}[j%4]
	}
	return ""
}

var vCliNumRe = regexp.MustCompile(`-(\d+)[.-]`)

// vCliSources maps the config NewSnowflakeClient was given back to sources; -2 = a value
// nobody sent.
func vCliSources(c sf.ClientConfig, nconns int) map[string]interface{} {
	src := func(f, v, flag string) int {
		if v == flag {
			return 0
		}
		for j := 1; j <= nconns; j++ {
			for _, cls := range []string{"ok", "bad"} {
				w := vCliArgValue(f, cls, j)
				if f == "ice" { // the list, element by element
					w = strings.Join(strings.Split(strings.TrimSpace(w), ","), "|")
				}
				if v == w {
					return j
				}
			}
		}
		return -2
	}
	out := map[string]interface{}{}
	out["url"] = src("url", c.BrokerURL, vCliFlagURL)
	out["ampcache"] = src("ampcache", c.AmpCacheURL, vCliFlagAmp)
	out["front"] = src("front", c.FrontDomain, vCliFlagFront)
	out["ice"] = src("ice", strings.Join(c.ICEAddresses, "|"), strings.Join(strings.Split(vCliFlagICE, ","), "|"))
	out["max"] = src("max", strconv.Itoa(c.Max), strconv.Itoa(vCliFlagMax))
	out["fingerprint"] = src("fingerprint", c.BridgeFingerprint, "")
	out["utls-imitate"] = src("utls-imitate", c.UTLSClientID, "")
	if c.UTLSRemoveSNI {
		out["utls-nosni"] = 1
	} else {
		out["utls-nosni"] = 0
	}
	if c.KeepLocalAddresses {
		out["url"] = -2 // nothing ever asked for that
	}
	return out
}

// ---------------------------------------------------------------------------
// goroutine ids and dumps

var vCliPkg = func() string {
	n := runtime.FuncForPC(reflect.ValueOf(copyLoop).Pointer()).Name()
	return strings.TrimSuffix(n, "copyLoop")
}()

var vCliGoidRe = regexp.MustCompile(`^goroutine (\d+) \[([^\]]*)\]:`)

func vCliGoid() int64 {
	var buf [64]byte
	n := runtime.Stack(buf[:], false)
	m := vCliGoidRe.FindSubmatch(buf[:n])
	if m == nil {
		return -1
	}
	id, _ := strconv.ParseInt(string(m[1]), 10, 64)
	return id
}

type vCliG struct {
	state string
	body  string
}

func vCliDump(stack *[]byte) map[int64]vCliG {
	var n int
	for {
		n = runtime.Stack(*stack, true)
		if n < len(*stack) {
			break
		}
		*stack = make([]byte, 2*len(*stack))
	}
	out := map[int64]vCliG{}
	for _, blk := range bytes.Split((*stack)[:n], []byte("\n\n")) {
		m := vCliGoidRe.FindSubmatch(blk)
		if m == nil {
			continue
		}
		id, _ := strconv.ParseInt(string(m[1]), 10, 64)
		st := string(m[2])
		if i := strings.IndexByte(st, ','); i >= 0 {
			st = st[:i]
		}
		out[id] = vCliG{st, string(blk)}
	}
	return out
}

func vCliCreatedBy(g vCliG, fn string, parent int64) bool {
	return strings.Contains(g.body+"\n", fmt.Sprintf("created by %s%s in goroutine %d\n", vCliPkg, fn, parent))
}

// ---------------------------------------------------------------------------
// the hook: every config NewSnowflakeClient is given

type vCliSeen struct {
	goid int64
	cfg  sf.ClientConfig
}

var (
	vCliHookMu   sync.Mutex
	vCliHookSeen []vCliSeen
)

func vCliInstallHook() {
	sf.VerifHook = func(point string, args ...interface{}) {
		if point != "newclient.config" || len(args) != 1 {
			return
		}
		c, ok := args[0].(sf.ClientConfig)
		if !ok {
			return
		}
		c.ICEAddresses = append([]string(nil), c.ICEAddresses...)
		vCliHookMu.Lock()
		vCliHookSeen = append(vCliHookSeen, vCliSeen{vCliGoid(), c})
		vCliHookMu.Unlock()
		if f := os.Getenv("VERIF_CLI_HOOKOUT"); f != "" { // child process: tell the parent
			b, _ := json.Marshal(c)
			if fh, err := os.OpenFile(f, os.O_APPEND|os.O_CREATE|os.O_WRONLY, 0600); err == nil {
				fh.Write(append(b, '\n'))
				fh.Close()
			}
		}
	}
}

// ---------------------------------------------------------------------------
// scripted listener under goptlib's SocksListener

type vCliTempErr struct{}

func (vCliTempErr) Error() string   { return "accept: too many open files (scripted)" }
func (vCliTempErr) Temporary() bool { return true }
func (vCliTempErr) Timeout() bool   { return false }

type vCliAcc struct {
	pass bool
	err  error
}

type vCliListener struct {
	real   net.Listener
	ch     chan vCliAcc
	mu     sync.Mutex
	calls  int
	closes int
	pauses int
	tempAt time.Time
	closed chan struct{}
}

func (l *vCliListener) Accept() (net.Conn, error) {
	now := time.Now()
	l.mu.Lock()
	if !l.tempAt.IsZero() {
		if now.Sub(l.tempAt) >= vCliPauseMin {
			l.pauses++
		}
		l.tempAt = time.Time{}
	}
	l.calls++
	l.mu.Unlock()
	select {
	case <-l.closed:
		return nil, errors.New("accept: use of closed network connection (scripted)")
	case r := <-l.ch:
		if r.pass {
			return l.real.Accept()
		}
		if _, ok := r.err.(vCliTempErr); ok {
			l.mu.Lock()
			l.tempAt = time.Now()
			l.mu.Unlock()
		}
		return nil, r.err
	}
}

func (l *vCliListener) offer(r vCliAcc) bool {
	select {
	case l.ch <- r:
		return true
	case <-time.After(vCliPatience):
		return false
	}
}

func (l *vCliListener) Close() error {
	l.mu.Lock()
	l.closes++
	first := l.closes == 1
	l.mu.Unlock()
	if first {
		close(l.closed)
		return l.real.Close()
	}
	return errors.New("close: use of closed network connection (scripted)")
}
func (l *vCliListener) Addr() net.Addr { return l.real.Addr() }

// ---------------------------------------------------------------------------
// SOCKS5 client of the harness (speaks to goptlib the way tor does)

type vCliSocks struct {
	c       *net.TCPConn
	mu      sync.Mutex
	reply   string // none | granted | rejected | error:...
	sawEnd  bool   // the read side ended after the reply
	buf     []byte
	half    bool
	hserr   string
	started chan struct{}
}

func vCliEncodeArgs(args map[string]string) string {
	esc := strings.NewReplacer(`\`, `\\`, `;`, `\;`, `=`, `\=`)
	keys := make([]string, 0, len(args))
	for k := range args {
		keys = append(keys, k)
	}
	sort.Strings(keys)
	parts := []string{}
	for _, k := range keys {
		parts = append(parts, esc.Replace(k)+"="+esc.Replace(args[k]))
	}
	return strings.Join(parts, ";")
}

func vCliDialSocks(addr string, args map[string]string) (*vCliSocks, error) {
	c, err := net.DialTimeout("tcp", addr, 5*time.Second)
	if err != nil {
		return nil, err
	}
	s := &vCliSocks{c: c.(*net.TCPConn), reply: "none"}
	go s.run(vCliEncodeArgs(args))
	return s, nil
}

func (s *vCliSocks) fail(err error) {
	s.mu.Lock()
	s.hserr = err.Error()
	s.reply = "error"
	s.sawEnd = true
	s.mu.Unlock()
}

func (s *vCliSocks) run(argstr string) {
	c := s.c
	rd := func(n int) ([]byte, error) {
		b := make([]byte, n)
		_, err := io.ReadFull(c, b)
		return b, err
	}
	if argstr == "" {
		c.Write([]byte{5, 1, 0}) // no arguments: tor offers "no authentication"
		if b, err := rd(2); err != nil || b[1] != 0 {
			s.fail(fmt.Errorf("method reply %v %v", b, err))
			return
		}
	} else {
		c.Write([]byte{5, 1, 2})
		if b, err := rd(2); err != nil || b[1] != 2 {
			s.fail(fmt.Errorf("method reply %v %v", b, err))
			return
		}
		// tor splits the argument string over the two fields
		user, pass := argstr, "\x00"
		if len(user) > 255 {
			user, pass = argstr[:255], argstr[255:]
		}
		if len(pass) > 255 {
			s.fail(errors.New("arguments too long"))
			return
		}
		msg := []byte{1, byte(len(user))}
		msg = append(msg, user...)
		msg = append(msg, byte(len(pass)))
		msg = append(msg, pass...)
		c.Write(msg)
		if b, err := rd(2); err != nil || b[1] != 0 {
			s.fail(fmt.Errorf("auth reply %v %v", b, err))
			return
		}
	}
	c.Write([]byte{5, 1, 0, 1, 192, 0, 2, 1, 0x23, 0x28}) // CONNECT 192.0.2.1:9000
	b, err := rd(10)
	if err != nil {
		s.fail(fmt.Errorf("no reply: %v", err))
		return
	}
	s.mu.Lock()
	if b[1] == 0 {
		s.reply = "granted"
	} else {
		s.reply = "rejected"
	}
	s.mu.Unlock()
	buf := make([]byte, 4096)
	for {
		n, err := c.Read(buf)
		s.mu.Lock()
		s.buf = append(s.buf, buf[:n]...)
		if err != nil {
			s.sawEnd = true
			s.mu.Unlock()
			return
		}
		s.mu.Unlock()
	}
}

// ---------------------------------------------------------------------------
// socks rig

type vCliConn struct {
	sock    *vCliSocks
	hgoid   int64 // handler goroutine (0: not seen)
	dgoid   int64
	dseen   bool
	copied  bool // the copy goroutines were seen, or must have existed
	hascfg  bool
	cfg     sf.ClientConfig
	hookIdx int
	fp      string // burst connections: the fingerprint argument that identifies the connection at the hook
}

type vCliLog struct {
	mu sync.Mutex
	b  bytes.Buffer
}

func (w *vCliLog) Write(p []byte) (int, error) {
	w.mu.Lock()
	defer w.mu.Unlock()
	return w.b.Write(p)
}
func (w *vCliLog) count(sub string) int {
	w.mu.Lock()
	defer w.mu.Unlock()
	return bytes.Count(w.b.Bytes(), []byte(sub))
}

type vCliRig struct {
	ln         *vCliListener
	lgoid      int64
	ldone      int32
	shutdown   chan struct{}
	shut       bool
	wg         sync.WaitGroup
	lastParked int64 // a probe goroutine seen parked in wg.Wait() by the latest picture
	conns      []*vCliConn
	known      map[int64]bool
	hook0      int
	stack      []byte
	logbuf     *vCliLog
	events     []map[string]interface{}
}

func vCliNewRig() (*vCliRig, error) {
	vCliInstallHook()
	real, err := net.Listen("tcp", "127.0.0.1:0")
	if err != nil {
		return nil, err
	}
	r := &vCliRig{ln: &vCliListener{real: real, ch: make(chan vCliAcc), closed: make(chan struct{})}, shutdown: make(chan struct{}),
		known: map[int64]bool{}, stack: make([]byte, 1<<18), logbuf: &vCliLog{}}
	log.SetOutput(r.logbuf)
	vCliHookMu.Lock()
	r.hook0 = len(vCliHookSeen)
	vCliHookMu.Unlock()
	ready := make(chan struct{})
	sl := pt.NewSocksListener(r.ln)
	go func() {
		r.lgoid = vCliGoid()
		close(ready)
		defer atomic.StoreInt32(&r.ldone, 1)
		socksAcceptLoop(sl, vCliFlagConfig(), r.shutdown, &r.wg)
	}()
	<-ready
	return r, nil
}

type vCliPic struct {
	loop       string
	h, d, u, v []string
	wgzero     bool
	text       string
	ready      bool
	busy       bool
}

func (r *vCliRig) picture() vCliPic {
	var probe int64
	if r.lastParked == 0 {
		probe = r.probe()
		for k := 0; k < 3; k++ {
			runtime.Gosched()
		}
	}
	gs := vCliDump(&r.stack)
	p := vCliPic{ready: true}
	if atomic.LoadInt32(&r.ldone) == 1 {
		p.loop = "ended"
	} else if g, ok := gs[r.lgoid]; ok {
		switch {
		case g.state == "select" && strings.Contains(g.body, "(*vCliListener).Accept"):
			p.loop = "accept"
		case g.state == "IO wait" && strings.Contains(g.body, "AcceptSocks"):
			p.loop, p.ready = "", false // the SOCKS negotiation with our client is going on
		case g.state == "chan send" || g.state == "semacquire" || g.state == "sync.WaitGroup.Wait" || g.state == "IO wait" || g.state == "select" || g.state == "chan receive":
			p.loop, p.busy = "busy", true
		default:
			p.loop, p.ready = "", false
		}
	} else {
		p.loop, p.ready = "", false
	}
	// new handler goroutines belong to the connection of the latest Connect
	for id, g := range gs {
		if r.known[id] || !strings.Contains(g.body, vCliPkg+"socksAcceptLoop.func1(") || !vCliCreatedBy(g, "socksAcceptLoop", r.lgoid) {
			continue
		}
		r.known[id] = true
		if n := len(r.conns); n > 0 && r.conns[n-1].hgoid == 0 && r.conns[n-1].fp == "" {
			r.conns[n-1].hgoid = id
		}
	}
	vCliHookMu.Lock()
	seen := append([]vCliSeen(nil), vCliHookSeen[r.hook0:]...)
	vCliHookMu.Unlock()
	for i, c := range r.conns {
		if !c.hascfg {
			for k, s := range seen {
				if (c.fp != "" && k >= c.hookIdx && s.cfg.BridgeFingerprint == c.fp) ||
					(c.fp == "" && ((c.hgoid != 0 && s.goid == c.hgoid) || (c.hgoid == 0 && i == len(r.conns)-1 && k >= c.hookIdx))) {
					c.hascfg, c.cfg = true, s.cfg
					if c.hgoid == 0 {
						c.hgoid = s.goid
						r.known[s.goid] = true
					}
					break
				}
			}
		}
		c.sock.mu.Lock()
		reply := c.sock.reply
		c.sock.mu.Unlock()
		h, d, u, v := "", "none", "none", "none"
		g, alive := gs[c.hgoid]
		if c.hgoid == 0 {
			alive = false
			if reply == "none" {
				// the handler has not been seen and has not answered: it is on its way
				p.ready = false
			}
		}
		switch {
		case !alive:
			h = "done"
		case (g.state == "select" || g.state == "chan receive") && strings.Contains(g.body, vCliPkg+"socksAcceptLoop.func1("):
			h = "select" // (a select with one case is compiled to a plain channel operation)
		default:
			h, p.ready = "", false
		}
		// dial goroutine
		var dg vCliG
		dfound := false
		if c.hgoid != 0 {
			for id, x := range gs {
				if vCliCreatedBy(x, "socksAcceptLoop.func1", c.hgoid) {
					dg, dfound, c.dgoid, c.dseen = x, true, id, true
				}
			}
		}
		if h == "select" {
			c.dseen = true // created before the select
		}
		switch {
		case dfound && dg.state == "chan receive" && strings.Contains(dg.body, vCliPkg+"copyLoop("):
			d = "copy"
			c.copied = true
		case dfound:
			d, p.ready = "", false // in Dial or in sconn.Close()
		case c.dseen || reply == "granted":
			d = "done"
			if c.dgoid != 0 {
				c.copied = true
			}
		}
		if c.dgoid != 0 {
			foundU, foundV := false, false
			for _, x := range gs {
				if !vCliCreatedBy(x, "copyLoop", c.dgoid) {
					continue
				}
				c.copied = true
				st := ""
				switch {
				case x.state == "chan send":
					st = "signal"
				case x.state == "IO wait" && strings.Contains(x.body, ").Read("):
					st = "read"
				case (x.state == "select" || x.state == "chan receive") && strings.Contains(x.body, "smux.(*Stream)"):
					st = "read"
				}
				if st == "" {
					p.ready = false
				}
				if strings.Contains(x.body, "copyLoop.func2") {
					foundU, u = true, st
				} else if strings.Contains(x.body, "copyLoop.func1") {
					foundV, v = true, st
				}
			}
			if c.copied || d == "done" {
				if !foundU {
					u = "done"
				}
				if !foundV {
					v = "done"
				}
			}
		} else if d == "done" {
			u, v = "done", "done" // the real Dial never fails: copyLoop ran and everything is gone
		}
		p.h, p.d, p.u, p.v = append(p.h, h), append(p.d, d), append(p.u, u), append(p.v, v)
	}
	// the WaitGroup: a probe goroutine in wg.Wait() is parked while the counter is not zero
	isParked := func(id int64) (parked, gone bool) {
		g, ok := gs[id]
		if !ok {
			return false, true
		}
		return (g.state == "semacquire" || g.state == "sync.WaitGroup.Wait") && strings.Contains(g.body, "sync.(*WaitGroup).Wait"), false
	}
	switch {
	case r.lastParked != 0:
		if parked, _ := isParked(r.lastParked); parked {
			p.wgzero = false
		} else {
			r.lastParked = 0 // released: the counter has been zero; ask again
			p.ready = false
		}
	default:
		parked, gone := isParked(probe)
		switch {
		case gone:
			p.wgzero = true
		case parked:
			p.wgzero, r.lastParked = false, probe
		default:
			p.ready = false // the probe has not got to its Wait yet
		}
	}
	p.text = fmt.Sprintf("%s %v %v %v %v wg0=%v", p.loop, p.h, p.d, p.u, p.v, p.wgzero)
	if os.Getenv("VERIF_CLI_DEBUG") == "1" {
		fmt.Fprintf(os.Stderr, "PICTURE %s ready=%v\n", p.text, p.ready)
	}
	return p
}

func (r *vCliRig) probe() int64 {
	ready := make(chan int64)
	go func() {
		ready <- vCliGoid()
		r.wg.Wait()
	}()
	return <-ready
}

// settled: the SOCKS clients have seen what finished handlers did to their connections
func (r *vCliRig) settled(p vCliPic) bool {
	for i, c := range r.conns {
		c.sock.mu.Lock()
		reply, end := c.sock.reply, c.sock.sawEnd
		c.sock.mu.Unlock()
		if p.h[i] == "done" && !end {
			return false // the handler's Close is on its way
		}
		if p.h[i] == "select" && reply == "none" {
			return false // the Grant is on its way
		}
		if c.sock.half && p.u[i] == "read" {
			return false // our FIN is on its way to the copier that reads the SOCKS conn
		}
	}
	return true
}

func (r *vCliRig) quiesce() (vCliPic, error) {
	deadline := time.Now().Add(30 * time.Second)
	began := time.Now()
	var patience time.Time
	prev, same := "", 0
	for {
		p := r.picture()
		ok := p.ready
		if ok && (p.busy || !r.settled(p)) {
			if patience.IsZero() {
				patience = time.Now().Add(vCliPatience)
				if !p.busy && atomic.LoadInt32(&vCliUnsettledSeen) >= 5 {
					// sockets that did not settle within the full patience five times already in this
					// process: believe it sooner from now on (a confirmation run starts afresh)
					patience = time.Now().Add(vCliPatience / 20)
				}
				if p.busy && atomic.LoadInt32(&vCliBusySeen) >= 3 {
					patience = time.Now().Add(vCliPatience / 20)
				}
			}
			if time.Now().Before(patience) {
				ok = false
			}
		}
		if ok {
			if p.text == prev {
				same++
			} else {
				same = 0
			}
			prev = p.text
			if same >= 1 {
				if p.busy {
					atomic.AddInt32(&vCliBusySeen, 1)
				} else if !patience.IsZero() && !time.Now().Before(patience) {
					atomic.AddInt32(&vCliUnsettledSeen, 1)
				}
				return p, nil
			}
		} else {
			prev, same = "", 0
		}
		if time.Now().After(deadline) {
			return p, fmt.Errorf("no quiescence within 30s (last picture %q)", p.text)
		}
		if patience.IsZero() && time.Since(began) < 200*time.Millisecond {
			runtime.Gosched()
		} else {
			time.Sleep(200 * time.Microsecond)
		}
	}
}

func (r *vCliRig) observe(p vCliPic) map[string]interface{} {
	r.ln.mu.Lock()
	pauses, closes := r.ln.pauses, r.ln.closes
	r.ln.mu.Unlock()
	conns := []interface{}{}
	for i, c := range r.conns {
		c.sock.mu.Lock()
		m := map[string]interface{}{"h": p.h[i], "d": p.d[i], "u": p.u[i], "v": p.v[i], "reply": c.sock.reply, "sclosed": c.sock.sawEnd,
			"hascfg": c.hascfg, "cfg": map[string]interface{}{}, "hserr": c.sock.hserr}
		c.sock.mu.Unlock()
		if c.hascfg {
			m["cfg"] = vCliSources(c.cfg, len(r.conns))
		}
		conns = append(conns, m)
	}
	return map[string]interface{}{"ev": "obs", "loop": p.loop, "pauses": pauses, "lncloses": closes, "shutdown": r.shut, "wgzero": p.wgzero,
		"sfcloses": r.logbuf.count("---- SnowflakeConn: closed stream"), "conns": conns}
}

func vCliConcreteArgs(abs map[string]string, j int) map[string]string {
	out := map[string]string{}
	for f, cls := range abs {
		if cls == "ok" || cls == "bad" {
			out[f] = vCliArgValue(f, cls, j)
		}
	}
	return out
}

func vCliFullArgs(abs map[string]string) map[string]interface{} {
	out := map[string]interface{}{}
	for _, f := range vCliFields {
		if v, ok := abs[f]; ok {
			out[f] = v
		} else {
			out[f] = "absent"
		}
	}
	return out
}

func (r *vCliRig) apply(s vCliStep) map[string]interface{} {
	loopAlive := atomic.LoadInt32(&r.ldone) == 0
	switch s.Op {
	case "Connect":
		if !loopAlive {
			return nil
		}
		j := len(r.conns) + 1
		sock, err := vCliDialSocks(r.ln.real.Addr().String(), vCliConcreteArgs(s.Args, j))
		if err != nil {
			return nil
		}
		vCliHookMu.Lock()
		hi := len(vCliHookSeen) - r.hook0
		vCliHookMu.Unlock()
		r.conns = append(r.conns, &vCliConn{sock: sock, hookIdx: hi})
		if !r.ln.offer(vCliAcc{pass: true}) {
			sock.c.Close()
			r.conns = r.conns[:len(r.conns)-1]
			return nil
		}
		return map[string]interface{}{"ev": "Connect", "args": vCliFullArgs(s.Args)}
	case "AcceptTemp":
		if !loopAlive || !r.ln.offer(vCliAcc{err: vCliTempErr{}}) {
			return nil
		}
		return map[string]interface{}{"ev": "AcceptTemp"}
	case "AcceptPerm":
		if !loopAlive || !r.ln.offer(vCliAcc{err: errors.New("accept: listener is gone (scripted)")}) {
			return nil
		}
		return map[string]interface{}{"ev": "AcceptPerm"}
	case "SocksEnd":
		if s.I < 1 || s.I > len(r.conns) || r.conns[s.I-1].sock.half {
			return nil
		}
		c := r.conns[s.I-1]
		c.sock.half = true
		c.sock.c.CloseWrite()
		return map[string]interface{}{"ev": "SocksEnd", "i": s.I, "kind": "eof"}
	case "Shutdown":
		if r.shut {
			return nil
		}
		r.shut = true
		close(r.shutdown)
		return map[string]interface{}{"ev": "Shutdown"}
	}
	return nil
}

// applyBurst sends and lets through several requests in a row; the handlers run side by side
func (r *vCliRig) applyBurst(s vCliStep) []map[string]interface{} {
	if atomic.LoadInt32(&r.ldone) == 1 {
		return nil
	}
	var evs []map[string]interface{}
	first := len(r.conns)
	for _, a := range s.Burst {
		j := len(r.conns) + 1
		sock, err := vCliDialSocks(r.ln.real.Addr().String(), vCliConcreteArgs(a, j))
		if err != nil {
			break
		}
		vCliHookMu.Lock()
		hi := len(vCliHookSeen) - r.hook0
		vCliHookMu.Unlock()
		r.conns = append(r.conns, &vCliConn{sock: sock, hookIdx: hi, fp: vCliArgValue("fingerprint", "ok", j)})
		evs = append(evs, map[string]interface{}{"ev": "Connect", "args": vCliFullArgs(a), "q": false})
	}
	for k := first; k < len(r.conns); k++ {
		if !r.ln.offer(vCliAcc{pass: true}) {
			for _, c := range r.conns[k:] {
				c.sock.c.Close()
			}
			r.conns, evs = r.conns[:k], evs[:k-first]
			break
		}
	}
	return evs
}

func (r *vCliRig) run(sc vCliSched, tr *vCliTrace) {
	for _, st := range sc.Steps {
		if st.Op == "ConnectBurst" {
			evs := r.applyBurst(st)
			if len(evs) == 0 {
				tr.Skipped++
				continue
			}
			r.events = append(r.events, evs...)
			p, err := r.quiesce()
			if err != nil {
				tr.Note = "quiescence: " + err.Error()
				return
			}
			r.events = append(r.events, r.observe(p))
			continue
		}
		ev := r.apply(st)
		if ev == nil {
			tr.Skipped++
			continue
		}
		ev["q"] = true
		r.events = append(r.events, ev)
		p, err := r.quiesce()
		if err != nil {
			tr.Note = "quiescence: " + err.Error()
			return
		}
		r.events = append(r.events, r.observe(p))
	}
}

func (r *vCliRig) cleanup() {
	if !r.shut {
		r.shut = true
		close(r.shutdown)
	}
	if atomic.LoadInt32(&r.ldone) == 0 {
		r.ln.offer(vCliAcc{err: errors.New("cleanup")})
	}
	for _, c := range r.conns {
		c.sock.c.Close()
	}
	for i := 0; i < 4000; i++ {
		p := r.picture()
		alive := p.loop != "ended"
		for k := range p.h {
			if p.h[k] != "done" || (p.d[k] != "done" && p.d[k] != "none") {
				alive = true
			}
		}
		if !alive {
			break
		}
		time.Sleep(500 * time.Microsecond)
	}
	r.ln.real.Close()
}

// ---------------------------------------------------------------------------
// copy rig: the real copyLoop between two scripted conns

const vCliChunkLen = 23

func vCliChunk(key uint32, dir byte, k int) []byte {
	return []byte(fmt.Sprintf("<%08x|%c|%010d>", key, dir, k))
}

func vCliParse(b []byte, key uint32, dir byte) []int {
	out := []int{}
	for len(b) > 0 {
		if len(b) < vCliChunkLen {
			out = append(out, 0)
			break
		}
		var gk uint32
		var gd byte
		var k int
		n, err := fmt.Sscanf(string(b[:vCliChunkLen]), "<%08x|%c|%010d>", &gk, &gd, &k)
		if err != nil || n != 3 || gk != key || gd != dir || k <= 0 {
			k = 0
		}
		out = append(out, k)
		b = b[vCliChunkLen:]
	}
	return out
}

type vCliRd struct {
	data []byte
	err  error
}

// vCliEnd is one scripted conn; Close unblocks Read and makes Read / Write fail, as the
// real ones do (TCP conn: "use of closed network connection"; smux stream: io.ErrClosedPipe).
type vCliEnd struct {
	name     string
	rd       chan vCliRd
	closedCh chan struct{}
	mu       sync.Mutex
	ncloses  int
	wfail    bool
	wbuf     []byte
	taken    int
	sent     int
}

func vCliNewEnd(name string) *vCliEnd {
	return &vCliEnd{name: name, rd: make(chan vCliRd, 64), closedCh: make(chan struct{})}
}

func (c *vCliEnd) Read(p []byte) (int, error) {
	select {
	case <-c.closedCh:
		return 0, io.ErrClosedPipe
	default:
	}
	select {
	case <-c.closedCh:
		return 0, io.ErrClosedPipe
	case it := <-c.rd:
		if it.err != nil {
			return 0, it.err
		}
		n := copy(p, it.data)
		c.mu.Lock()
		c.taken++
		c.mu.Unlock()
		return n, nil
	}
}

func (c *vCliEnd) Write(p []byte) (int, error) {
	c.mu.Lock()
	defer c.mu.Unlock()
	if c.ncloses > 0 {
		return 0, io.ErrClosedPipe
	}
	if c.wfail {
		return 0, errors.New("write: broken pipe (scripted)")
	}
	c.wbuf = append(c.wbuf, p...)
	return len(p), nil
}

func (c *vCliEnd) Close() error {
	c.mu.Lock()
	defer c.mu.Unlock()
	c.ncloses++
	if c.ncloses == 1 {
		close(c.closedCh)
		return nil
	}
	return io.ErrClosedPipe
}

type vCliCopyRig struct {
	key       uint32
	socks, sf *vCliEnd
	cgoid     int64 // the caller of copyLoop
	cdone     int32
	stack     []byte
	events    []map[string]interface{}
}

var vCliKeySeq = uint32(time.Now().UnixNano())

func vCliNewCopyRig() *vCliCopyRig {
	r := &vCliCopyRig{key: atomic.AddUint32(&vCliKeySeq, 1), socks: vCliNewEnd("socks"), sf: vCliNewEnd("sf"), stack: make([]byte, 1<<16)}
	log.SetOutput(io.Discard)
	ready := make(chan struct{})
	go func() {
		r.cgoid = vCliGoid()
		close(ready)
		defer atomic.StoreInt32(&r.cdone, 1)
		// the dial goroutine of the handler ...
		func() {
			defer r.sf.Close()
			copyLoop(r.socks, r.sf)
		}()
		// ... and the handler, whose select wakes up when that goroutine is done
		r.socks.Close()
	}()
	<-ready
	return r
}

func (r *vCliCopyRig) picture() (d, u, v string, ready bool) {
	gs := vCliDump(&r.stack)
	ready = true
	if atomic.LoadInt32(&r.cdone) == 1 {
		d = "done"
	} else if g, ok := gs[r.cgoid]; ok && g.state == "chan receive" && strings.Contains(g.body, vCliPkg+"copyLoop(") {
		d = "copy"
	} else {
		d, ready = "", false
	}
	u, v = "done", "done"
	for _, x := range gs {
		if !vCliCreatedBy(x, "copyLoop", r.cgoid) {
			continue
		}
		st := ""
		switch {
		case x.state == "chan send":
			st = "signal"
		case (x.state == "select" || x.state == "chan receive") && strings.Contains(x.body, "(*vCliEnd).Read"):
			st = "read"
		}
		if st == "" {
			ready = false
		}
		if strings.Contains(x.body, "copyLoop.func2") {
			u = st
		} else if strings.Contains(x.body, "copyLoop.func1") {
			v = st
		}
	}
	return
}

func (r *vCliCopyRig) quiesce() (map[string]interface{}, error) {
	deadline := time.Now().Add(20 * time.Second)
	began := time.Now()
	var patience time.Time
	prev, same := "", 0
	for {
		d, u, v, ready := r.picture()
		// a copier parked at its send on done is what a leak looks like: it must last
		if ready && (u == "signal" || v == "signal") {
			if patience.IsZero() {
				patience = time.Now().Add(vCliPatience / 4)
			}
			if time.Now().Before(patience) {
				ready = false
			}
		}
		text := d + u + v
		if ready {
			if text == prev {
				same++
			} else {
				same = 0
			}
			prev = text
			if same >= 1 {
				h := "select"
				if d == "done" {
					h = "done"
				}
				r.socks.mu.Lock()
				r.sf.mu.Lock()
				ev := map[string]interface{}{"ev": "cobs", "h": h, "d": d, "u": u, "v": v,
					"sclosed": r.socks.ncloses, "fclosed": r.sf.ncloses, "staken": r.socks.taken, "ftaken": r.sf.taken,
					"sgot": vCliParse(r.socks.wbuf, r.key, 'd'), "fgot": vCliParse(r.sf.wbuf, r.key, 'u')}
				r.sf.mu.Unlock()
				r.socks.mu.Unlock()
				return ev, nil
			}
		} else {
			prev, same = "", 0
		}
		if time.Now().After(deadline) {
			return nil, fmt.Errorf("no quiescence within 20s (last picture %q)", text)
		}
		if patience.IsZero() && time.Since(began) < 200*time.Millisecond {
			runtime.Gosched()
		} else {
			time.Sleep(200 * time.Microsecond)
		}
	}
}

func (r *vCliCopyRig) apply(s vCliStep) map[string]interface{} {
	if s.I != 1 {
		return nil
	}
	end, dir := r.socks, byte('u')
	if strings.HasPrefix(s.Op, "Sf") {
		end, dir = r.sf, 'd'
	}
	switch s.Op {
	case "SocksChunk", "SfChunk":
		end.sent++
		end.rd <- vCliRd{data: vCliChunk(r.key, dir, end.sent)}
		return map[string]interface{}{"ev": s.Op, "i": 1}
	case "SocksEnd", "SfEnd":
		err := io.EOF
		if s.Kind == "err" {
			err = errors.New("read: connection reset by peer (scripted)")
		}
		end.rd <- vCliRd{err: err}
		return map[string]interface{}{"ev": s.Op, "i": 1, "kind": s.Kind}
	case "SocksWriteFail", "SfWriteFail":
		end.mu.Lock()
		end.wfail = true
		end.mu.Unlock()
		return map[string]interface{}{"ev": s.Op, "i": 1}
	}
	return nil
}

func (r *vCliCopyRig) run(sc vCliSched, tr *vCliTrace) {
	for _, st := range sc.Steps {
		ev := r.apply(st)
		if ev == nil {
			tr.Skipped++
			continue
		}
		ev["q"] = true
		r.events = append(r.events, ev)
		obs, err := r.quiesce()
		if err != nil {
			tr.Note = "quiescence: " + err.Error()
			return
		}
		r.events = append(r.events, obs)
	}
}

func (r *vCliCopyRig) cleanup() {
	r.socks.Close()
	r.sf.Close()
	for i := 0; i < 2000 && atomic.LoadInt32(&r.cdone) == 0; i++ {
		time.Sleep(200 * time.Microsecond)
	}
}

// ---------------------------------------------------------------------------
// process rig: the real main() in a child process

func TestMain(m *testing.M) {
	if os.Getenv("VERIF_CLI_CHILD") == "1" {
		vCliInstallHook()
		os.Args = []string{"snowflake-client", "-url", vCliFlagURL, "-front", vCliFlagFront, "-ampcache", vCliFlagAmp,
			"-ice", " " + vCliFlagICE + " ", "-max", strconv.Itoa(vCliFlagMax)}
		main()
		os.Exit(0)
	}
	os.Exit(m.Run())
}

func vCliWaitFor(d time.Duration, cond func() bool) bool {
	end := time.Now().Add(d)
	for {
		if cond() {
			return true
		}
		if time.Now().After(end) {
			return false
		}
		time.Sleep(time.Millisecond)
	}
}

func vCliRunProc(sc vCliSched, tr *vCliTrace) {
	dir, err := os.MkdirTemp("", "vcli-state-")
	if err != nil {
		tr.Note = "harness: " + err.Error()
		return
	}
	defer os.RemoveAll(dir)
	hookout := dir + "/hook.ndjson"
	cmd := exec.Command(os.Args[0], "-test.run=^$")
	cmd.Env = append(os.Environ(),
		"VERIF_CLI_CHILD=1",
		"VERIF_CLI_HOOKOUT="+hookout,
		"TOR_PT_MANAGED_TRANSPORT_VER=1",
		"TOR_PT_STATE_LOCATION="+dir,
		"TOR_PT_CLIENT_TRANSPORTS=snowflake",
		"TOR_PT_EXIT_ON_STDIN_CLOSE=1",
	)
	stdin, err := cmd.StdinPipe()
	if err != nil {
		tr.Note = "harness: " + err.Error()
		return
	}
	stdout, err := cmd.StdoutPipe()
	if err != nil {
		tr.Note = "harness: " + err.Error()
		return
	}
	errf, err := os.Create(dir + "/stderr")
	if err != nil {
		tr.Note = "harness: " + err.Error()
		return
	}
	defer errf.Close()
	cmd.Stderr = errf
	if err := cmd.Start(); err != nil {
		tr.Note = "harness: " + err.Error()
		return
	}
	exited := make(chan struct{})
	var exitCode int
	var exitAt time.Time
	ready := make(chan string, 1)
	go func() {
		sc := bufio.NewScanner(stdout)
		var lines []string
		for sc.Scan() {
			lines = append(lines, sc.Text())
			if sc.Text() == "CMETHODS DONE" {
				ready <- strings.Join(lines, "\n")
			}
		}
	}()
	go func() {
		err := cmd.Wait()
		exitAt = time.Now()
		if ee, ok := err.(*exec.ExitError); ok {
			exitCode = ee.ExitCode()
		} else if err != nil {
			exitCode = -1
		}
		close(exited)
	}()
	hasExited := func() bool {
		select {
		case <-exited:
			return true
		default:
			return false
		}
	}
	var socks []*vCliSocks
	defer func() {
		if !hasExited() {
			cmd.Process.Kill()
			<-exited
		}
		for _, s := range socks {
			s.c.Close()
		}
	}()
	addr := ""
	select {
	case l := <-ready:
		m := regexp.MustCompile(`(?m)^CMETHOD snowflake socks5 (\S+)$`).FindStringSubmatch(l)
		if m == nil {
			tr.Note = "harness: the child did not announce the SOCKS listener: " + l
			return
		}
		addr = m[1]
	case <-exited:
		b, _ := os.ReadFile(dir + "/stderr")
		tr.Note = fmt.Sprintf("harness: the child exited (%d) before CMETHODS DONE: %s", exitCode, string(b))
		return
	case <-time.After(30 * time.Second):
		tr.Note = "harness: the child did not reach CMETHODS DONE within 30 s"
		return
	}
	type seen struct {
		has bool
		cfg sf.ClientConfig
	}
	var cfgs []seen
	hooklines := func() []sf.ClientConfig {
		var out []sf.ClientConfig
		b, err := os.ReadFile(hookout)
		if err != nil {
			return nil
		}
		for _, ln := range bytes.Split(b, []byte("\n")) {
			var c sf.ClientConfig
			if len(bytes.TrimSpace(ln)) > 0 && json.Unmarshal(ln, &c) == nil {
				out = append(out, c)
			}
		}
		return out
	}
	var signalAt time.Time
	observe := func() map[string]interface{} {
		conns := []interface{}{}
		for i, s := range socks {
			s.mu.Lock()
			m := map[string]interface{}{"reply": s.reply, "sclosed": s.sawEnd, "hascfg": cfgs[i].has, "cfg": map[string]interface{}{}, "hserr": s.hserr}
			s.mu.Unlock()
			if cfgs[i].has {
				m["cfg"] = vCliSources(cfgs[i].cfg, len(socks))
			}
			conns = append(conns, m)
		}
		ev := map[string]interface{}{"ev": "pobs", "exited": hasExited(), "conns": conns}
		if hasExited() {
			ev["code"] = exitCode
			if !signalAt.IsZero() {
				ev["ms"] = int(exitAt.Sub(signalAt) / time.Millisecond)
			}
		}
		return ev
	}
	for _, st := range sc.Steps {
		var ev map[string]interface{}
		switch st.Op {
		case "Connect":
			if hasExited() || !signalAt.IsZero() {
				break
			}
			j := len(socks) + 1
			before := len(hooklines())
			s, err := vCliDialSocks(addr, vCliConcreteArgs(st.Args, j))
			if err != nil {
				break
			}
			socks = append(socks, s)
			cfgs = append(cfgs, seen{})
			vCliWaitFor(vCliPatience+3*time.Second, func() bool { s.mu.Lock(); defer s.mu.Unlock(); return s.reply != "none" })
			s.mu.Lock()
			rejected := s.reply != "granted"
			s.mu.Unlock()
			if rejected {
				vCliWaitFor(vCliPatience, func() bool { s.mu.Lock(); defer s.mu.Unlock(); return s.sawEnd })
			}
			if hl := hooklines(); len(hl) > before {
				cfgs[j-1] = seen{true, hl[before]}
			}
			ev = map[string]interface{}{"ev": "Connect", "args": vCliFullArgs(st.Args)}
		case "SocksEnd":
			if st.I < 1 || st.I > len(socks) || socks[st.I-1].half {
				break
			}
			s := socks[st.I-1]
			s.half = true
			s.c.CloseWrite()
			vCliWaitFor(vCliPatience+3*time.Second, func() bool { s.mu.Lock(); defer s.mu.Unlock(); return s.sawEnd })
			ev = map[string]interface{}{"ev": "SocksEnd", "i": st.I, "kind": "eof"}
		case "Sigterm", "StdinEOF":
			if hasExited() || !signalAt.IsZero() {
				break
			}
			signalAt = time.Now()
			if st.Op == "Sigterm" {
				cmd.Process.Signal(syscall.SIGTERM)
			} else {
				stdin.Close()
			}
			select {
			case <-exited:
			case <-time.After(10 * time.Second):
			}
			for _, s := range socks {
				s := s
				vCliWaitFor(vCliPatience, func() bool { s.mu.Lock(); defer s.mu.Unlock(); return s.sawEnd })
			}
			ev = map[string]interface{}{"ev": st.Op}
		}
		if ev == nil {
			tr.Skipped++
			continue
		}
		ev["q"] = true
		tr.Events = append(tr.Events, ev)
		prev := ""
		for k := 0; k < 200; k++ {
			time.Sleep(3 * time.Millisecond)
			b, _ := json.Marshal(observe())
			if string(b) == prev {
				break
			}
			prev = string(b)
		}
		tr.Events = append(tr.Events, observe())
	}
	if b, err := os.ReadFile(dir + "/stderr"); err == nil && hasExited() && exitCode != 0 {
		if len(b) > 1500 {
			b = b[len(b)-1500:]
		}
		tr.Info = map[string]interface{}{"stderr": string(b)}
	}
}

// ---------------------------------------------------------------------------

func vCliRunSchedule(sc vCliSched) (tr vCliTrace) {
	tr = vCliTrace{ID: sc.ID, Mode: sc.Mode, Events: []map[string]interface{}{}}
	defer func() {
		if p := recover(); p != nil {
			tr.Note = fmt.Sprintf("harness panic: %v", p)
		}
	}()
	switch sc.Mode {
	case "proc":
		vCliRunProc(sc, &tr)
	case "copy":
		r := vCliNewCopyRig()
		r.run(sc, &tr)
		tr.Events = r.events
		r.cleanup()
	default:
		r, err := vCliNewRig()
		if err != nil {
			tr.Note = "harness: " + err.Error()
			return tr
		}
		r.run(sc, &tr)
		tr.Events = r.events
		r.cleanup()
	}
	if tr.Events == nil {
		tr.Events = []map[string]interface{}{}
	}
	return tr
}

func TestVerifClientMain(t *testing.T) {
	in, out := os.Getenv("VERIF_CLI_SCHED"), os.Getenv("VERIF_CLI_OUT")
	if in == "" || out == "" {
		t.Skip("VERIF_CLI_SCHED / VERIF_CLI_OUT not set")
	}
	if v, err := strconv.Atoi(os.Getenv("VERIF_CLI_PATIENCE_MS")); err == nil && v > 0 {
		vCliPatience = time.Duration(v) * time.Millisecond
	}
	f, err := os.Open(in)
	if err != nil {
		t.Fatal(err)
	}
	defer f.Close()
	var scheds []vCliSched
	sc := bufio.NewScanner(f)
	sc.Buffer(make([]byte, 1<<20), 1<<26)
	for sc.Scan() {
		if len(bytes.TrimSpace(sc.Bytes())) == 0 {
			continue
		}
		var s vCliSched
		if err := json.Unmarshal(sc.Bytes(), &s); err != nil {
			t.Fatal(err)
		}
		scheds = append(scheds, s)
	}
	of, err := os.Create(out)
	if err != nil {
		t.Fatal(err)
	}
	w := bufio.NewWriter(of)
	// one schedule at a time: the hook, the logger and the goroutine census are process-wide
	// a process that has become hopelessly slow (code under test that leaves thousands of goroutines behind)
	// stops executing; what it has not run is reported as such, what it has run is still judged
	budget := 240 * time.Second
	if v, err := strconv.Atoi(os.Getenv("VERIF_CLI_BUDGET_S")); err == nil && v > 0 {
		budget = time.Duration(v) * time.Second
	}
	t0 := time.Now()
	for _, s := range scheds {
		var tr vCliTrace
		if time.Since(t0) > budget {
			tr = vCliTrace{ID: s.ID, Mode: s.Mode, Events: []map[string]interface{}{}, Note: fmt.Sprintf("not run: the harness process used up its %v (goroutines: %d)", budget, runtime.NumGoroutine())}
		} else {
			tr = vCliRunSchedule(s)
		}
		b, _ := json.Marshal(tr)
		w.Write(b)
		w.WriteByte('\n')
		w.Flush()
	}
	of.Close()
	fmt.Printf("VERIF_CLI schedules=%d goroutines_left=%d\n", len(scheds), runtime.NumGoroutine())
}
