package nat

// Conformance driver for spec/NatDiscovery (lib/checks/c15_natdisc.py), part
// "the two STUN tests".
//
// Every case is a scripted STUN server behaviour printed by TLC (GenSpec of
// spec/NatDiscovery) with the result the contract demands.  The driver starts a
// scripted responder with two sockets (the primary address and the "other"
// address it advertises), calls the REAL CheckIfRestrictedNAT (= the mapping
// test) or isRestrictedFiltering, and records what came back, how long it took,
// what the server saw, whether the client's UDP socket is still bound
// afterwards (/proc/net/udp: the server knows the client's port) and whether
// the listener goroutine the call started is still alive (goroutine dump:
// "created by ...nat.listen in goroutine N" with N = the calling goroutine).
// It decides nothing: expected values are compared in c15_natdisc.py.
//
// The code's timeout is 10 s per round trip (a literal in RoundTrip): all cases
// run in parallel, one goroutine each.  One model tick = vNdTickMS of real time
// (a "late" response is sent one tick after the request).
// All identifiers carry the prefix vNd.

import (
	"bufio"
	"encoding/json"
	"errors"
	"fmt"
	"io/ioutil"
	"log"
	"net"
	"os"
	"regexp"
	"runtime"
	"strconv"
	"strings"
	"sync"
	"testing"
	"time"

	"github.com/pion/stun"
)

type vNdResp struct {
	Kind   string `json:"kind"`   // silent garbage short oversize noxor errresp success
	Other  string `json:"other"`  // success: alt none changed v6 self
	Mapped string `json:"mapped"` // success: same diffport diffip   (relative to the true source of the first request)
	From   string `json:"from"`   // dst (the socket the request went to) | cross (the other socket)
	Txid   string `json:"txid"`   // echo | wrong
	Copies int    `json:"copies"` // 1 | 2
	Delay  int    `json:"delay"`  // ticks before the answer is sent
}

type vNdCase struct {
	ID   int     `json:"id"`
	Fn   string  `json:"fn"`   // check (CheckIfRestrictedNAT) | mapping | filtering
	Addr string  `json:"addr"` // ok noport turnurl badhost badport empty
	R1   vNdResp `json:"r1"`
	R2   vNdResp `json:"r2"`
	Slow bool    `json:"slow"` // the model says this case waits for the code's timeout (set by the check from TLC's expected ticks)
}

type vNdReq struct {
	N      int    `json:"n"`
	At     string `json:"at"` // primary | alt
	Change string `json:"change"`
	SameTx bool   `json:"same_txid"`
	Type   string `json:"type"`
	MS     int64  `json:"ms"`
}

type vNdObs struct {
	ID         int      `json:"id"`
	Note       string   `json:"note,omitempty"` // harness trouble (no verdict)
	Panic      string   `json:"panic,omitempty"`
	Returned   bool     `json:"returned"`
	Restricted bool     `json:"restricted"`
	Err        string   `json:"err"`
	Stage      string   `json:"stage"`        // none connect roundtrip1 xor1 notsupported resolveother roundtrip2 xor2 unknown
	Cause      string   `json:"cause"`        // none timeout chan attr resolve other
	IsTimedOut bool     `json:"is_timed_out"` // errors.Is(err, ErrTimedOut)
	MS         int64    `json:"ms"`           // from the call to its return
	HeldMS     int64    `json:"held_ms"`      // of which the answer to its first request was held back at the barrier (the round trip's timer runs meanwhile)
	Reqs       []vNdReq `json:"reqs"`
	ClientPort int      `json:"client_port"`
	SockInode  string   `json:"sock_inode"`    // inode of the client's UDP socket (looked up when its first request arrived)
	SockBound  bool     `json:"sock_bound"`    // ... is still in /proc/net/udp after the call (settled)
	ListenLeft int      `json:"listener_left"` // listener goroutines of this call still alive (settled)
	LeftWhere  string   `json:"left_where,omitempty"`
	LeftStack  string   `json:"left_stack,omitempty"`
	StrayIn    int      `json:"stray_in"` // datagrams that reached the responder and are not binding requests (ignored)
}

const vNdTickMS = 1000

// All cases of a run share the machine's UDP port space, and the code under test accepts ANY datagram as
// "the response": a stray answer sent to a port that was closed and has been given to another case's socket
// would change that case's result.  Strays exist by design (second copies, answers after a duplicate already
// served the round trip).  So no socket is created while answers can be in flight: every responder holds its
// first answer until every case of the run has sent its first request (all sockets exist then).
type vNdBarrier struct {
	mu     sync.Mutex
	want   int
	have   int
	open   chan struct{}
	opened bool
}

func vNdNewBarrier(n int) *vNdBarrier {
	b := &vNdBarrier{want: n, open: make(chan struct{})}
	if n == 0 {
		b.opened = true
		close(b.open)
	}
	return b
}

func (b *vNdBarrier) arrive() {
	b.mu.Lock()
	b.have++
	if b.have >= b.want && !b.opened {
		b.opened = true
		close(b.open)
	}
	b.mu.Unlock()
	select {
	case <-b.open:
	case <-time.After(20 * time.Second): // a case that never sends (a defect under test) must not hold the others for ever
		b.mu.Lock()
		if !b.opened {
			b.opened = true
			close(b.open)
		}
		b.mu.Unlock()
	}
}

// shared snapshots (a goroutine dump stops the world; /proc/net/udp is long): one parsed snapshot is reused
// by every case that asks for one taken at or after the instant it names
type vNdListener struct{ where, stack string }

type vNdStackSnap struct {
	mu        sync.Mutex
	at        time.Time
	byCreator map[string][]vNdListener // goroutines created by nat.listen, by the id of the goroutine that called it
	total     int
}

func (s *vNdStackSnap) get(after time.Time) (map[string][]vNdListener, int) {
	s.mu.Lock()
	defer s.mu.Unlock()
	if s.byCreator == nil || s.at.Before(after) {
		s.at = time.Now()
		buf := make([]byte, 64<<20)
		dump := string(buf[:runtime.Stack(buf, true)])
		s.byCreator = map[string][]vNdListener{}
		s.total = 0
		for _, g := range strings.Split(dump, "\n\n") {
			if !strings.Contains(g, "nat.listen") {
				continue
			}
			m := vNdCreatedRe.FindStringSubmatch(g)
			if m == nil {
				continue
			}
			s.total++
			where := ""
			hd := strings.SplitN(g, "\n", 2)[0]
			if i := strings.Index(hd, "["); i >= 0 {
				where = strings.Trim(hd[i:], "[]:")
				if j := strings.Index(where, ","); j >= 0 {
					where = where[:j]
				}
			}
			if len(g) > 1500 {
				g = g[:1500]
			}
			s.byCreator[m[1]] = append(s.byCreator[m[1]], vNdListener{where, g})
		}
	}
	return s.byCreator, s.total
}

type vNdUDPSnap struct {
	mu     sync.Mutex
	at     time.Time
	byPort map[string]string // "00000000:PPPP" (wildcard local address) -> inode
	inodes map[string]bool
}

func (s *vNdUDPSnap) get(after time.Time) (map[string]string, map[string]bool) {
	s.mu.Lock()
	defer s.mu.Unlock()
	if s.inodes == nil || s.at.Before(after) {
		s.at = time.Now()
		b, _ := ioutil.ReadFile("/proc/net/udp")
		s.byPort, s.inodes = map[string]string{}, map[string]bool{}
		for i, line := range strings.Split(string(b), "\n") {
			fs := strings.Fields(line)
			if i == 0 || len(fs) < 10 {
				continue
			}
			s.inodes[fs[9]] = true
			if strings.HasPrefix(fs[1], "00000000:") {
				s.byPort[fs[1]] = fs[9]
			}
		}
	}
	return s.byPort, s.inodes
}

var vNdStacks = &vNdStackSnap{}
var vNdProcUDP = &vNdUDPSnap{}

// ---------------------------------------------------------------------------
// scripted STUN responder

type vNdServer struct {
	c       *vNdCase
	primary *net.UDPConn
	alt     *net.UDPConn
	mu      sync.Mutex
	reqs    []vNdReq
	first   *net.UDPAddr // true source of the first request
	firstTx [stun.TransactionIDSize]byte
	t0      time.Time
	wg      sync.WaitGroup
	altIP   net.IP
	closed  chan struct{}
	stray   int
	heldMS  int64
	inode   string
	sendMu  sync.Mutex // one reply (all its copies) at a time, in the order of the requests
	gate    *vNdBarrier
}

func vNdAltIP() net.IP {
	addrs, _ := net.InterfaceAddrs()
	for _, a := range addrs {
		if ipn, ok := a.(*net.IPNet); ok && ipn.IP.To4() != nil && !ipn.IP.IsLoopback() {
			return ipn.IP.To4()
		}
	}
	return net.IPv4(127, 0, 0, 1)
}

func vNdNewServer(c *vNdCase, gate *vNdBarrier) (*vNdServer, error) {
	s := &vNdServer{c: c, gate: gate, t0: time.Now(), altIP: vNdAltIP(), closed: make(chan struct{})}
	var err error
	if s.primary, err = net.ListenUDP("udp4", &net.UDPAddr{IP: net.IPv4(127, 0, 0, 1)}); err != nil {
		return nil, err
	}
	if s.alt, err = net.ListenUDP("udp4", &net.UDPAddr{IP: s.altIP}); err != nil {
		s.primary.Close()
		return nil, err
	}
	s.wg.Add(2)
	go s.serve(s.primary, "primary")
	go s.serve(s.alt, "alt")
	return s, nil
}

func (s *vNdServer) close() {
	close(s.closed)
	s.primary.Close()
	s.alt.Close()
	s.wg.Wait()
}

func (s *vNdServer) serve(c *net.UDPConn, name string) {
	defer s.wg.Done()
	buf := make([]byte, 2048)
	for {
		n, from, err := c.ReadFromUDP(buf)
		if err != nil {
			return
		}
		m := &stun.Message{Raw: append([]byte{}, buf[:n]...)}
		if err := m.Decode(); err != nil || m.Type != stun.BindingRequest {
			s.mu.Lock()
			s.stray++
			s.mu.Unlock()
			continue
		}
		s.mu.Lock()
		k := len(s.reqs) + 1
		if k == 1 {
			s.first = from
			s.firstTx = m.TransactionID
		}
		rq := vNdReq{N: k, At: name, SameTx: m.TransactionID == s.firstTx, Type: m.Type.String(), MS: int64(time.Since(s.t0) / time.Millisecond), Change: "none"}
		if v, err := m.Get(stun.AttrChangeRequest); err == nil {
			rq.Change = fmt.Sprintf("%x", v)
		}
		s.reqs = append(s.reqs, rq)
		first := s.first
		s.mu.Unlock()
		if k == 1 {
			ino := vNdInodeOf(from.Port)
			s.mu.Lock()
			s.inode = ino
			s.mu.Unlock()
			if s.gate != nil {
				th := time.Now()
				s.gate.arrive()
				s.mu.Lock()
				s.heldMS = int64(time.Since(th) / time.Millisecond)
				s.mu.Unlock()
			}
		}
		var r *vNdResp
		switch k {
		case 1:
			r = &s.c.R1
		case 2:
			r = &s.c.R2
		default:
			continue
		}
		go s.answer(r, m, from, first, name)
	}
}

func (s *vNdServer) answer(r *vNdResp, req *stun.Message, to, first *net.UDPAddr, at string) {
	if r.Kind == "silent" || r.Kind == "" {
		return
	}
	if r.Delay > 0 {
		select {
		case <-time.After(time.Duration(r.Delay*vNdTickMS) * time.Millisecond):
		case <-s.closed:
			return
		}
	}
	var raw []byte
	tx := req.TransactionID
	if r.Txid == "wrong" {
		tx[0] ^= 0xff
		tx[5] ^= 0x5a
	}
	txs := stun.NewTransactionIDSetter(tx)
	build := func(setters ...stun.Setter) []byte {
		m, err := stun.Build(setters...)
		if err != nil {
			return []byte("build failed: " + err.Error())
		}
		return m.Raw
	}
	switch r.Kind {
	case "garbage":
		raw = []byte("HTTP/1.1 400 Bad Request\r\nthis is not a STUN message at all\r\n\r\n")
	case "short":
		raw = []byte{0x01, 0x01, 0x00, 0x00, 0x21, 0x12, 0xa4}
	case "oversize":
		// a correct success response that is longer than the 1024-byte buffer of the client's listener
		raw = build(txs, stun.BindingSuccess, &stun.XORMappedAddress{IP: first.IP, Port: first.Port},
			&stun.OtherAddress{IP: s.altIP, Port: s.alt.LocalAddr().(*net.UDPAddr).Port}, stun.NewSoftware(strings.Repeat("s", 700)),
			stun.RawAttribute{Type: stun.AttrType(0x8070), Value: []byte(strings.Repeat("p", 600))})
	case "noxor":
		raw = build(txs, stun.BindingSuccess, &stun.MappedAddress{IP: first.IP, Port: first.Port},
			&stun.OtherAddress{IP: s.altIP, Port: s.alt.LocalAddr().(*net.UDPAddr).Port})
	case "errresp":
		raw = build(txs, stun.BindingError, stun.CodeBadRequest)
	case "success":
		mp := stun.XORMappedAddress{IP: append(net.IP{}, first.IP.To4()...), Port: first.Port}
		switch r.Mapped {
		case "diffport":
			mp.Port = first.Port%60000 + 1111
		case "diffip":
			mp.IP = net.IPv4(198, 51, 100, 7).To4()
		}
		set := []stun.Setter{txs, stun.BindingSuccess, &mp}
		switch r.Other {
		case "alt":
			set = append(set, &stun.OtherAddress{IP: s.altIP, Port: s.alt.LocalAddr().(*net.UDPAddr).Port})
		case "self":
			set = append(set, &stun.OtherAddress{IP: net.IPv4(127, 0, 0, 1).To4(), Port: s.primary.LocalAddr().(*net.UDPAddr).Port})
		case "changed":
			// RFC 3489 CHANGED-ADDRESS (0x0005): what pre-5780 servers send
			a := &stun.MappedAddress{IP: s.altIP, Port: s.alt.LocalAddr().(*net.UDPAddr).Port}
			m := new(stun.Message)
			a.AddTo(m)
			v, _ := m.Get(stun.AttrMappedAddress)
			set = append(set, stun.RawAttribute{Type: stun.AttrType(0x0005), Value: v})
		case "v6":
			set = append(set, &stun.OtherAddress{IP: net.ParseIP("2001:db8::5780"), Port: 3479})
		}
		set = append(set, stun.Fingerprint)
		raw = build(set...)
	default:
		return
	}
	sock := s.primary
	if (at == "alt") != (r.From == "cross") {
		sock = s.alt
	}
	n := r.Copies
	if n < 1 {
		n = 1
	}
	s.sendMu.Lock()
	for i := 0; i < n; i++ {
		sock.WriteToUDP(raw, to)
	}
	s.sendMu.Unlock()
}

func (s *vNdServer) addr(class string) string {
	p := s.primary.LocalAddr().(*net.UDPAddr).Port
	switch class {
	case "ok":
		return fmt.Sprintf("127.0.0.1:%d", p)
	case "noport":
		return "127.0.0.1" // a STUN URL without an explicit port (RFC 7064 default 3478)
	case "turnurl":
		return fmt.Sprintf("turn:127.0.0.1:%d", p) // what is left of a turn: URL after TrimPrefix("stun:")
	case "badhost":
		return fmt.Sprintf("stun.invalid:%d", p)
	case "badport":
		return "127.0.0.1:stun-port"
	case "empty":
		return ""
	case "v6":
		return fmt.Sprintf("[::1]:%d", p)
	}
	return class
}

// ---------------------------------------------------------------------------
// observation

func vNdGoid() string {
	buf := make([]byte, 64)
	n := runtime.Stack(buf, false)
	f := strings.Fields(string(buf[:n]))
	if len(f) >= 2 {
		return f[1]
	}
	return "?"
}

var vNdCreatedRe = regexp.MustCompile(`created by \S*nat\.listen in goroutine (\d+)`)

// listener goroutines created by goroutine `goid` that are still alive (in a dump taken at or after `after`);
// where the first one is, and its stack
func vNdListeners(goid string, after time.Time) (int, string, string) {
	m, _ := vNdStacks.get(after)
	l := m[goid]
	if len(l) == 0 {
		return 0, "", ""
	}
	return len(l), l[0].where, l[0].stack
}

// inode of the UDP socket bound to the wildcard address and `port` (the client's socket: the responders bind
// specific addresses), "" if there is none.  A snapshot of /proc/net/udp is not atomic (an entry can be missed
// while the table changes): looked up in up to three snapshots.
func vNdInodeOf(port int) string {
	want := fmt.Sprintf("00000000:%04X", port)
	for i := 0; i < 3; i++ {
		byPort, _ := vNdProcUDP.get(time.Now())
		if ino := byPort[want]; ino != "" {
			return ino
		}
	}
	return ""
}

func vNdInodeBound(inode string, after time.Time) bool {
	if inode == "" {
		return false
	}
	_, inodes := vNdProcUDP.get(after)
	return inodes[inode]
}

// UDP sockets this process holds
func vNdOwnUDPSockets() int {
	udp := map[string]bool{}
	for _, f := range []string{"/proc/net/udp", "/proc/net/udp6"} {
		b, _ := ioutil.ReadFile(f)
		for i, line := range strings.Split(string(b), "\n") {
			fs := strings.Fields(line)
			if i > 0 && len(fs) >= 10 {
				udp[fs[9]] = true
			}
		}
	}
	ents, _ := ioutil.ReadDir("/proc/self/fd")
	n := 0
	for _, e := range ents {
		l, err := os.Readlink("/proc/self/fd/" + e.Name())
		if err == nil && strings.HasPrefix(l, "socket:[") && udp[strings.TrimSuffix(strings.TrimPrefix(l, "socket:["), "]")] {
			n++
		}
	}
	return n
}

func vNdClassify(fn string, err error) (stage, cause string) {
	if err == nil {
		return "none", "none"
	}
	s := err.Error()
	cause = "other"
	switch {
	case errors.Is(err, ErrTimedOut):
		cause = "timeout"
	case strings.Contains(s, "error reading from messageChan"):
		cause = "chan"
	case errors.Is(err, stun.ErrAttributeNotFound):
		cause = "attr"
	}
	if fn == "filtering" {
		// isRestrictedFiltering returns the errors unwrapped: the stage is not visible in the error
		if _, ok := err.(*net.AddrError); ok {
			return "any", "resolve"
		}
		if _, ok := err.(*net.DNSError); ok {
			return "any", "resolve"
		}
		return "any", cause
	}
	switch {
	case strings.HasPrefix(s, "Error creating STUN connection"):
		return "connect", "resolve"
	case strings.HasPrefix(s, "Error completing roundtrip map test"):
		return "roundtrip1", cause
	case strings.HasPrefix(s, "Error retrieving XOR-MAPPED-ADDRESS resonse"):
		return "xor", cause
	case strings.HasPrefix(s, "NAT discovery feature not supported"):
		return "notsupported", cause
	case strings.HasPrefix(s, "Error resolving address"):
		return "resolveother", "resolve"
	case strings.HasPrefix(s, "Error retrieveing server response"):
		return "roundtrip2", cause
	}
	return "unknown", cause
}

func vNdRun(c *vNdCase, gate *vNdBarrier) (o vNdObs) {
	o = vNdObs{ID: c.ID, Reqs: []vNdReq{}}
	s, err := vNdNewServer(c, gate)
	if err != nil {
		o.Note = "responder: " + err.Error()
		return
	}
	defer s.close()
	addr := s.addr(c.Addr)
	type ret struct {
		r     bool
		err   error
		panic string
		goid  string
	}
	done := make(chan ret, 1)
	t := time.Now()
	go func() {
		x := ret{goid: vNdGoid()}
		defer func() {
			if p := recover(); p != nil {
				x.panic = fmt.Sprint(p)
			}
			done <- x
		}()
		switch c.Fn {
		case "filtering":
			x.r, x.err = isRestrictedFiltering(addr)
		case "mapping":
			x.r, x.err = isRestrictedMapping(addr)
		default:
			x.r, x.err = CheckIfRestrictedNAT(addr)
		}
	}()
	var x ret
	select {
	case x = <-done:
		o.Returned = true
	case <-time.After(60 * time.Second): // the code's own bound is 10 s per round trip, two round trips
		o.MS = int64(time.Since(t) / time.Millisecond)
		s.mu.Lock()
		o.Reqs = append(o.Reqs, s.reqs...)
		s.mu.Unlock()
		return
	}
	s.mu.Lock()
	o.HeldMS = s.heldMS
	s.mu.Unlock()
	o.MS = int64(time.Since(t) / time.Millisecond)
	o.Panic = x.panic
	o.Restricted = x.r
	if x.err != nil {
		o.Err = x.err.Error()
		o.IsTimedOut = errors.Is(x.err, ErrTimedOut)
	}
	o.Stage, o.Cause = vNdClassify(c.Fn, x.err)
	// settle: stray answers (second copies, late ones) have been delivered; what is still there stays
	s.mu.Lock()
	if s.first != nil {
		o.ClientPort = s.first.Port
	}
	o.SockInode = s.inode
	s.mu.Unlock()
	deadline := time.Now().Add(1500 * time.Millisecond)
	for {
		now := time.Now()
		o.ListenLeft, o.LeftWhere, o.LeftStack = vNdListeners(x.goid, now)
		o.SockBound = vNdInodeBound(o.SockInode, now)
		if (o.ListenLeft == 0 && !o.SockBound) || now.After(deadline) {
			break
		}
		time.Sleep(100 * time.Millisecond)
	}
	s.mu.Lock()
	o.StrayIn = s.stray
	s.mu.Unlock()
	s.mu.Lock()
	o.Reqs = append(o.Reqs, s.reqs...)
	s.mu.Unlock()
	return
}

func TestVerifNatDiscovery(t *testing.T) {
	in, outp := os.Getenv("VERIF_ND_IN"), os.Getenv("VERIF_ND_OUT")
	if in == "" || outp == "" {
		t.Skip("VERIF_ND_IN / VERIF_ND_OUT not set")
	}
	log.SetOutput(ioutil.Discard)
	fo, err := os.Create(outp)
	if err != nil {
		t.Fatal(err)
	}
	defer fo.Close()
	w := bufio.NewWriter(fo)
	var wmu sync.Mutex
	emit := func(o interface{}) {
		b, _ := json.Marshal(o)
		wmu.Lock()
		w.Write(b)
		w.WriteByte('\n')
		w.Flush()
		wmu.Unlock()
	}
	fi, err := os.Open(in)
	if err != nil {
		t.Fatal(err)
	}
	defer fi.Close()
	var cases []*vNdCase
	sc := bufio.NewScanner(fi)
	sc.Buffer(make([]byte, 1<<20), 1<<24)
	for sc.Scan() {
		if len(strings.TrimSpace(sc.Text())) == 0 {
			continue
		}
		c := &vNdCase{}
		if err := json.Unmarshal(sc.Bytes(), c); err != nil {
			t.Fatalf("case %d: %v", len(cases), err)
		}
		cases = append(cases, c)
	}
	t0 := time.Now()
	baseSockets := vNdOwnUDPSockets()
	// phase 1: the cases that never send a request (address classes): they create sockets at most at their start
	var wg sync.WaitGroup
	var send []*vNdCase
	for _, c := range cases {
		if c.Addr == "ok" {
			send = append(send, c)
			continue
		}
		wg.Add(1)
		go func(c *vNdCase) {
			defer wg.Done()
			emit(vNdRun(c, nil))
		}(c)
	}
	wg.Wait()
	// phase 2: the others in batches, each behind its own barrier (see vNdBarrier).  A case that ends in the code's
	// timeout has a silent server at that point: it sends no stray and only waits; the next batch does not
	// wait for it (its socket exists already; sockets that exist cannot be hit by a stray meant for a closed port).
	batch := 600
	if v, err := strconv.Atoi(os.Getenv("VERIF_ND_BATCH")); err == nil && v > 0 {
		batch = v
	}
	maxHeld := int64(0)
	for lo := 0; lo < len(send); lo += batch {
		hi := lo + batch
		if hi > len(send) {
			hi = len(send)
		}
		gate := vNdNewBarrier(hi - lo)
		var fast sync.WaitGroup
		for _, c := range send[lo:hi] {
			slow := c.Slow
			wg.Add(1)
			if !slow {
				fast.Add(1)
			}
			go func(c *vNdCase, slow bool) {
				defer wg.Done()
				o := vNdRun(c, gate)
				if !slow {
					fast.Done()
				}
				emit(o)
			}(c, slow)
		}
		fast.Wait()
	}
	wg.Wait()
	_ = maxHeld
	// global accounting: no listener goroutine of the package and no UDP socket may be left at all
	_, left := vNdStacks.get(time.Now())
	socketsLeft := vNdOwnUDPSockets() - baseSockets
	emit(map[string]interface{}{"summary": map[string]interface{}{"cases": len(cases), "listeners_left_total": left, "udp_sockets_left": socketsLeft,
		"wall_ms": int64(time.Since(t0) / time.Millisecond), "tick_ms": vNdTickMS, "alt_ip": vNdAltIP().String()}})
}
