// Package vh holds the small amount of plumbing shared by the conformance
// drivers: newline-delimited JSON in and out, a parallel case runner that
// turns panics into results, and a keyed byte generator.
package vh

import (
	"bufio"
	"encoding/json"
	"fmt"
	"os"
	"runtime"
	"runtime/debug"
	"sync"
)

// ReadCases reads newline-delimited JSON objects from path.
func ReadCases(path string) ([]json.RawMessage, error) {
	f, err := os.Open(path)
	if err != nil {
		return nil, err
	}
	defer f.Close()
	var out []json.RawMessage
	sc := bufio.NewScanner(f)
	sc.Buffer(make([]byte, 1<<20), 1<<28)
	for sc.Scan() {
		b := sc.Bytes()
		if len(b) == 0 {
			continue
		}
		c := make([]byte, len(b))
		copy(c, b)
		out = append(out, c)
	}
	return out, sc.Err()
}

// Result is what a driver reports for one case that did not conform.
type Result struct {
	Idx    int         `json:"idx"`
	Sig    string      `json:"sig"`
	Detail string      `json:"detail"`
	Case   interface{} `json:"case,omitempty"`
}

// Writer serialises results to a file.
type Writer struct {
	mu sync.Mutex
	f  *os.File
	w  *bufio.Writer
}

func NewWriter(path string) (*Writer, error) {
	f, err := os.Create(path)
	if err != nil {
		return nil, err
	}
	return &Writer{f: f, w: bufio.NewWriter(f)}, nil
}

func (w *Writer) Put(v interface{}) {
	b, err := json.Marshal(v)
	if err != nil {
		b, _ = json.Marshal(map[string]string{"marshal_error": err.Error()})
	}
	w.mu.Lock()
	w.w.Write(b)
	w.w.WriteByte('\n')
	w.mu.Unlock()
}

func (w *Writer) Close() error {
	w.mu.Lock()
	defer w.mu.Unlock()
	if err := w.w.Flush(); err != nil {
		return err
	}
	return w.f.Close()
}

// RunParallel calls fn(i) for i in [0,n) on `workers` goroutines (0 = NumCPU).
// A panic inside fn is passed to onPanic (with the stack) and does not stop the
// other cases.
func RunParallel(n, workers int, fn func(i int), onPanic func(i int, v interface{}, stack string)) {
	if workers <= 0 {
		workers = runtime.NumCPU()
	}
	var wg sync.WaitGroup
	ch := make(chan int, 1024)
	for k := 0; k < workers; k++ {
		wg.Add(1)
		go func() {
			defer wg.Done()
			for i := range ch {
				func() {
					defer func() {
						if v := recover(); v != nil {
							onPanic(i, v, string(debug.Stack()))
						}
					}()
					fn(i)
				}()
			}
		}()
	}
	for i := 0; i < n; i++ {
		ch <- i
	}
	close(ch)
	wg.Wait()
}

// KeyByte is a keyed function position -> byte (splitmix64), used to fill
// payloads so that shifted, foreign or duplicated bytes are recognisable.
func KeyByte(key uint64, pos uint64) byte {
	z := key + 0x9e3779b97f4a7c15*(pos+1)
	z = (z ^ (z >> 30)) * 0xbf58476d1ce4e5b9
	z = (z ^ (z >> 27)) * 0x94d049bb133111eb
	z = z ^ (z >> 31)
	return byte(z)
}

// Fill fills p with KeyByte(key, off+i).
func Fill(p []byte, key uint64, off uint64) {
	for i := range p {
		p[i] = KeyByte(key, off+uint64(i))
	}
}

// Rng is a small deterministic generator (splitmix64).
type Rng struct{ s uint64 }

func NewRng(seed uint64) *Rng { return &Rng{s: seed*0x9e3779b97f4a7c15 + 0x1234567} }
func (r *Rng) Uint64() uint64 {
	r.s += 0x9e3779b97f4a7c15
	z := r.s
	z = (z ^ (z >> 30)) * 0xbf58476d1ce4e5b9
	z = (z ^ (z >> 27)) * 0x94d049bb133111eb
	return z ^ (z >> 31)
}
func (r *Rng) Intn(n int) int {
	if n <= 0 {
		return 0
	}
	return int(r.Uint64() % uint64(n))
}

// Fatal prints and exits with status 3 (driver failure, never a verdict).
func Fatal(format string, a ...interface{}) {
	fmt.Fprintf(os.Stderr, "driver error: "+format+"\n", a...)
	os.Exit(3)
}
